"""C07: CursorAwareWindow.render_to_terminal keeps history intact and shows the array - inductive proof over render histories.

Ghost terminal as a TAPE (contracts/fullscreen.py hooks): the rows of the terminal - scrollback included - are the cells of one
infinite tape `term.rows : Int -> Row`; the screen is the window [off, off + H) onto it and scrolling one line is `off += 1`
(the line that scrolls into view is a cell never written before: blank).  The origin is the screen's first row at entry (off = 0
at entry), so cell x < 0 is scrollback that existed before, cell x = T0 is the window's first row, and a row keeps its cell when
the screen scrolls.  The row cache `{row: line}` is a symbolic dict with a key shift (re-keying `{k - 1: v ...}` per scroll is
shift += 1), so its arrays are indexed by tape cell as well.

Representation invariant Inv (assumed at entry for an ARBITRARY window/terminal state, proved at exit):
   remembered size == current size  =>  every cached row in [top, H) is displayed as cached, and the cache is empty or holds every
   row of [top, H);   every cell below the screen is blank (what scrolls into view).
Postconditions = the statement:
   cells above the window's first row (x < T0: earlier output and scrollback) are exactly what they were;
   cell T0 + i displays array row i for EVERY i < len(array) - rows pushed off the top are in the scrollback, intact;
   every cell from T0 + len(array) to the bottom of the screen is blank;
   off' == max(0, len(array) - (H - T0)) lines were scrolled; the return value is the number of array rows pushed off the top;
   the cursor is on the cell of array row cursor_pos[0], column cursor_pos[1];
   nothing was written outside the protocol (no wrap: rows fit the width; every cursor address on the screen);  Inv again.
ASSUMED: blessed/xterm capability semantics at row level and BaseWindow.scroll_down scrolling exactly one line (both validated
by the bounded suite of C07 against spec/terminal.py and pyte); array rows are no wider than the terminal (C07's quantifier)."""
import z3
from pyvc import terms as T
from pyvc.terms import Row, LINELEN, CLIPID, displays
from pyvc.spec import And, Or, Not, Implies, If, Max, Min
from pyvc.contract import Contract, Shape, Loop, IntT, BoolT, ObjT, NS
from pyvc.values import fresh
import contracts.fullscreen as FS
from contracts.fullscreen import ARR, ROWS, LineSeqT, SymDictT, PairT, HIDE, NORMAL, CLEAR_EOL, CLEAR_BOL
import contracts.window as WIN          # scroll_down / xform / write contracts

M = "window:"
Sel = z3.Select


def _sd(x):
    if isinstance(x, dict):
        if x:
            raise AttributeError("non-empty concrete dict in a symbolic-dict invariant")
        return NS(dict(present=z3.K(T.I, z3.BoolVal(False)), val=z3.K(T.I, z3.IntVal(-1)), nonempty=z3.BoolVal(False), shift=z3.IntVal(0)))
    return x


def _win():
    return ObjT("CursorAwareWindow", dict(
        hide_cursor=BoolT(), top_usable_row=IntT(0), _last_rendered_height=IntT(), _last_rendered_width=IntT(),
        _last_lines_by_row=SymDictT(), _last_cursor_row=IntT(), _last_cursor_column=IntT(),
        t=ObjT("FsTerminal", dict(height=IntT(1), width=IntT(1), hide_cursor=HIDE, normal_cursor=NORMAL, clear_eol=CLEAR_EOL, clear_bol=CLEAR_BOL))))


G0 = {}


def _setup(st, values):
    g = st.ghost
    g["term.rows"] = fresh("TAPE0", ROWS)
    g["term.r"], g["term.c"] = fresh("CUR_R0", T.I), fresh("CUR_C0", T.I)
    g["term.bad"] = z3.BoolVal(False)
    o = st.deref(values["self"])
    t = st.deref(o.fields["t"])
    g["term.H"], g["term.W"] = t.fields["height"].t, t.fields["width"].t
    g["term.rows0"] = g["term.rows"]
    g["term.off"] = z3.IntVal(0)
    g["scrolls"] = z3.IntVal(0)
    G0["rows0"] = g["term.rows0"]


def inv_clauses(cache, rows, top, off, H, W, same_size):
    """Inv over tape cells x: the screen row of cell x is r = x - off, its cache entry lives at array index r + shift"""
    sh = cache.shift

    def idx(x):
        return z3.simplify(x - off + sh)
    return [lambda x: Implies(And(same_size, top <= x - off, x - off < H, Sel(cache.present, idx(x))), displays(Sel(rows, x), Sel(cache.val, idx(x)), W)),
            lambda x: Implies(And(same_size, cache.nonempty, top <= x - off, x - off < H), Sel(cache.present, idx(x))),
            lambda x: Implies(And(same_size, Not(cache.nonempty)), Not(Sel(cache.present, idx(x)))),
            lambda x: Implies(x >= H + off, Sel(rows, x) == Row.blank)]


def _requires(a):
    w = a.self
    H, Wd, T0 = w.t.height, w.t.width, w.top_usable_row
    same = And(w._last_rendered_height == H, w._last_rendered_width == Wd)
    n = a.array.n
    return inv_clauses(_sd(w._last_lines_by_row), G0["rows0"], T0, z3.IntVal(0), H, Wd, same) + \
        [And(T0 >= 0, T0 < H),
         lambda i: And(ARR(i) >= 0, LINELEN(ARR(i)) >= 0, LINELEN(ARR(i)) <= Wd, CLIPID(ARR(i), Wd) == ARR(i)),
         And(a.cursor_pos[0] >= 0, a.cursor_pos[0] < Max(n, 1), a.cursor_pos[1] >= 0, a.cursor_pos[1] < Wd)]


def _consts(L, g, o):
    H, Wd = o.t.height, o.t.width
    return [L.height == H, L.width == Wd, Not(g["term.bad"]), L.self._last_rendered_height == H, L.self._last_rendered_width == Wd]


def _loop1(L):
    g, o = L._st.ghost, L.old.self
    H, Wd, T0 = o.t.height, o.t.width, o.top_usable_row
    rows, rows0 = g["term.rows"], g["term.rows0"]
    cur = _sd(L.current_lines_by_row)
    k = L.k
    return _consts(L, g, o) + [
        g["term.off"] == 0, g["scrolls"] == 0, cur.shift == 0, L.self.top_usable_row == T0, cur.nonempty == (k > 0),
        lambda x: Implies(And(x >= T0, x < T0 + k), And(displays(Sel(rows, x), ARR(x - T0), Wd), Sel(cur.present, x), Sel(cur.val, x) == ARR(x - T0))),
        lambda x: Implies(Or(x < T0, x >= T0 + k), And(Sel(rows, x) == Sel(rows0, x), Not(Sel(cur.present, x))))]


def _loop2(L):
    g, o = L._st.ghost, L.old.self
    H, Wd, T0, n = o.t.height, o.t.width, o.top_usable_row, L.old.array.n
    rows, rows0 = g["term.rows"], g["term.rows0"]
    cur = _sd(L.current_lines_by_row)
    j, m = L.k, Min(n, H - T0)
    return _consts(L, g, o) + [
        g["term.off"] == 0, g["scrolls"] == 0, cur.shift == 0, L.self.top_usable_row == T0, L.shared == m, cur.nonempty == Or(m > 0, j > 0),
        lambda x: Implies(And(x >= T0, x < T0 + m), And(displays(Sel(rows, x), ARR(x - T0), Wd), Sel(cur.present, x), Sel(cur.val, x) == ARR(x - T0))),
        lambda x: Implies(And(x >= T0 + m, x < T0 + m + j), And(Sel(rows, x) == Row.blank, Sel(cur.present, x), Sel(cur.val, x) == -1)),
        lambda x: Implies(Or(x < T0, x >= T0 + m + j), And(Sel(rows, x) == Sel(rows0, x), Not(Sel(cur.present, x))))]


def _loop3(L):
    g, o = L._st.ghost, L.old.self
    H, Wd, T0, n = o.t.height, o.t.width, o.top_usable_row, L.old.array.n
    rows, rows0 = g["term.rows"], g["term.rows0"]
    cur = _sd(L.current_lines_by_row)
    q, m = L.k, Min(n, H - T0)
    return _consts(L, g, o) + [
        g["term.off"] == q, g["scrolls"] == q, cur.shift == q, L.self.top_usable_row == Max(0, T0 - q), L.offscreen_scrolls == Max(0, q - T0),
        L.shared == m, cur.nonempty == Or(H - T0 > 0, q > 0),
        lambda x: Implies(And(x >= T0, x < T0 + m + q), And(displays(Sel(rows, x), ARR(x - T0), Wd), Sel(cur.present, x), Sel(cur.val, x) == ARR(x - T0))),
        lambda x: Implies(And(x >= T0 + m + q, x < H + q), And(Sel(rows, x) == Row.blank, Sel(cur.present, x), Sel(cur.val, x) == -1)),
        lambda x: Implies(x < T0, And(Sel(rows, x) == Sel(rows0, x), Not(Sel(cur.present, x)))),
        lambda x: Implies(x >= H + q, And(Sel(rows, x) == Sel(rows0, x), Not(Sel(cur.present, x))))]


def _ensures(a, r):
    st = a.final_state
    g = st.ghost
    w, f = a.self, a.final.self
    H, Wd, T0, n = w.t.height, w.t.width, w.top_usable_row, a.array.n
    rows, rows0, off = g["term.rows"], g["term.rows0"], g["term.off"]
    scrolls = Max(0, n - (H - T0))
    top1 = Max(0, T0 - scrolls)
    ret = Max(0, scrolls - T0)
    cache = _sd(f._last_lines_by_row)
    inv = inv_clauses(cache, rows, f.top_usable_row, off, H, Wd, True)
    return [("post.content_above_the_window_untouched", lambda x: Implies(x < T0, Sel(rows, x) == Sel(rows0, x))),
            ("post.array_shown_from_the_windows_first_row", lambda x: Implies(And(x >= T0, x < T0 + n), displays(Sel(rows, x), ARR(x - T0), Wd))),
            ("post.rows_below_the_array_blank", lambda x: Implies(And(x >= T0 + n, x < H + off), Sel(rows, x) == Row.blank)),
            ("post.scrolls_exactly_what_does_not_fit", And(off == scrolls, g["scrolls"] == scrolls)),
            ("post.top_usable_row", f.top_usable_row == top1),
            ("post.returns_rows_pushed_off_the_top", r == ret),
            ("post.cursor_on_the_cell_cursor_pos_designates",
             And(Implies(T0 + a.cursor_pos[0] - off >= 0, g["term.r"] + off == T0 + a.cursor_pos[0]),      # (top row if that cell scrolled off)
                 Implies(T0 + a.cursor_pos[0] - off < 0, g["term.r"] == 0), g["term.c"] == a.cursor_pos[1])),
            ("post.no_wrap_no_stray_write", Not(g["term.bad"])),
            ("post.size_remembered", And(f._last_rendered_height == H, f._last_rendered_width == Wd)),
            ("post.Inv.cached_rows_displayed", inv[0]), ("post.Inv.cache_complete", inv[1]), ("post.Inv.cache_empty", inv[2]),
            ("post.Inv.below_screen_blank", inv[3])]


caw_screen = Contract(
    M + "CursorAwareWindow.render_to_terminal#screen", "C07", ["self", "array", "cursor_pos"], kind="method",
    shapes=[Shape("any", dict(self=_win(), array=LineSeqT(), cursor_pos=PairT()))],
    requires=_requires, ensures=_ensures,
    loops={0: Loop(inv=_loop1), 1: Loop(inv=_loop2), 2: Loop(inv=_loop3)})
caw_screen.symdict = True
caw_screen.inline_methods = ("on_terminal_size_change",)
caw_screen.setup = _setup


# ---------------------------------------------------------------------------------------------- C18's side of the render
# get_cursor_vertical_diff measures movement "since the last render" from the row the window REMEMBERS (_last_cursor_row): the render must
# remember the row on which it really left the terminal's cursor - for every array, cursor_pos, top row and size, scrolled-off rows included.
def _remembered_row(a, r):
    g = a.final_state.ghost
    f = a.final.self
    return [("post.remembered_cursor_row_is_the_row_the_cursor_was_left_on", And(f._last_cursor_row == g["term.r"], f._last_cursor_column == g["term.c"]))]


caw_remembers = Contract(
    M + "CursorAwareWindow.render_to_terminal#remembered_row", "C18", ["self", "array", "cursor_pos"], kind="method",
    shapes=[Shape("any", dict(self=_win(), array=LineSeqT(), cursor_pos=PairT()))],
    requires=_requires, ensures=_remembered_row,
    loops={0: Loop(inv=_loop1), 1: Loop(inv=_loop2), 2: Loop(inv=_loop3)})
caw_remembers.symdict = True
caw_remembers.inline_methods = ("on_terminal_size_change",)
caw_remembers.setup = _setup
