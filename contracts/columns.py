"""C10: cutting by terminal columns - the character-level cutter width_aware_slice(s, start, end) and the run walk
FmtStr.width_aware_slice(slice(a, b)).

Column model (spec functions, pyvc/terms.py), written from the statement:
  WCW(c)            columns of one character (cwcwidth.wcwidth: ASSUMED dependency contract, 0 / 1 / 2 under C10's quantifier)
  PREW(s, i)        columns occupied by the first i characters: PREW(s, 0) = 0, PREW(s, i+1) = PREW(s, i) + WCW(s[i])   (definition)
  BASEF(s)          the column-occupying characters of s (width > 0), in order                                        (filter)
  BCUT(s, a, b)     what columns a..b-1 of s show, as base characters: a character lying wholly inside is itself, a double-width
                    character cut by an edge is ONE blank, everything else contributes nothing.  Defined as the fold of
                    `_piece` over the characters (the ghost GB below); zero-width characters are not part of this view - the
                    statement is silent about which side of a cut they attach to (bounded suite: never invented, in order).
  RUNCUT(xs, a, b)  the same for a run list, with each run's formatting: fold of CELLS(BCUT(s_k, a - W_k, b - W_k), atts_k).
Statement-level postconditions:
  cutter : BASEF(result) == BCUT(s, a, b)            and  width(result) == number of requested columns that exist
  method : base cells of the result == RUNCUT(runs, a, b)  and  result.width == number of requested columns that exist
Lemma schemas about the fold BCUT used as ground instances by the run walk (L1-L4 below and the split of RUNCUT at a break) are
NOT proved by the SMT solvers (they need induction); they are validated on every run by exhaustive evaluation of the executable
column model (props/C10.py: lemma_selftest) and listed as assumptions."""
import z3
from pyvc import terms as T
from pyvc import spec as S
from pyvc.spec import And, Or, Not, Implies, If
from pyvc.contract import Contract, Shape, Loop, IntT, StrT, FmtT, ConstT, SliceT
from pyvc.loops import Ghost
from pyvc.values import Sym, fresh, mk_int
import contracts.formatstring as F

M = "formatstring:"
EMPTY = z3.Empty(T.SI)


def ov(c0, c1, a, b):
    """number of columns of [c0, c1) that lie in [a, b)"""
    return S.Max(0, S.Min(c1, b) - S.Max(c0, a))


# ---------------------------------------------------------------------------------------------- executable column model
def py_wcw(c):
    from cwcwidth import wcwidth
    return wcwidth(c)


def py_basef(s):
    return "".join(c for c in s if py_wcw(c) > 0)


def py_bcut(s, a, b):
    out, col = [], 0
    for c in s:
        w = py_wcw(c)
        c0, c1 = col, col + w
        col = c1
        if w > 0:
            out.append(c if (c0 >= a and c1 <= b) else " " * ov(c0, c1, a, b))
    return "".join(out)


def py_runcut(f, a, b):
    out, col = [], 0
    for ch in f.chunks:
        at = S.norm_atts(ch.atts)
        out.extend((c, at) for c in py_bcut(ch.s, a - col, b - col))
        col += sum(py_wcw(c) for c in ch.s)
    return out


def py_bview(f):
    return [(c, S.norm_atts(ch.atts)) for ch in f.chunks for c in py_basef(ch.s)]


# ---------------------------------------------------------------------------------------------- wcwidth (ASSUMED external)
def _wcwidth_result(a, st):
    c = a.wc if z3.is_expr(a.wc) else T.str_term(a.wc)
    return mk_int(T.WCW(c[0]))


wcwidth_ext = Contract("ext:formatstring.wcwidth", "C10", ["wc"], shapes=[],
                       requires=lambda a: (z3.Length(a.wc) == 1) if z3.is_expr(a.wc) else (len(a.wc) == 1),
                       result=_wcwidth_result, doc="ASSUMED: cwcwidth.wcwidth(c) == WCW(ord(c)); probed per code point in C10's bounded suite")
wcwidth_ext.assumed = True


def column_definitions(s):
    """definition of PREW by recursion, the dependency contract wcswidth(s) = sum of wcwidth (all 0, 1 or 2 when it is >= 0)"""
    return [T.PREW(s, z3.IntVal(0)) == 0, T.WCS(s) == T.PREW(s, z3.Length(s)), T.BASEF(EMPTY) == EMPTY, T.WCS(EMPTY) == 0,
            lambda i: Implies(And(i >= 0, i < z3.Length(s)),
                              And(T.WCW(s[i]) >= 0, T.WCW(s[i]) <= 2, T.PREW(s, i + 1) == T.PREW(s, i) + T.WCW(s[i]),
                                  T.PREW(s, i) >= 0))]


# ---------------------------------------------------------------------------------------------- the cutter
def _piece(s, k, a, b):
    """what character k of s contributes to the base view of columns a..b-1 (from the statement)"""
    c0, c1 = T.PREW(s, k), T.PREW(s, k + 1)
    ch = z3.SubSeq(s, k, 1)
    return z3.If(c1 - c0 > 0, z3.If(z3.And(c0 >= a, c1 <= b), ch, T.SPACES(ov(c0, c1, a, b))), EMPTY)


_GB = Ghost("GB", T.SI, lambda: EMPTY,
            lambda g, e, k, old: z3.Concat(g, _piece(old.s, k, old.start, old.end)),
            lambda sp, old: T.BCUT(old.s, old.start, old.end))


def _chars(x):
    if z3.is_expr(x):
        return x if x.sort() == T.SI else EMPTY          # (the empty display, before the first character is added)
    return S.as_int_seq(x)


def _inv_divides(L):
    D = S.as_int_seq(L.divides)
    return [z3.Length(D) == L.k + 1, lambda i: Implies(And(i >= 0, i <= L.k), D[i] == T.PREW(L.old.s, i))]


def _inv_cut(L):
    s, a, b = L.old.s, L.old.start, L.old.end
    chars = _chars(L.new_chunk_chars)
    return [T.BASEF(chars) == L.GB, T.WCS(chars) == ov(0, T.PREW(s, L.k), a, b)]


def _cut_ensures(a, r):
    if z3.is_expr(a.s):
        return [("post.base_characters_of_the_requested_columns", T.BASEF(r) == T.BCUT(a.s, a.start, a.end)),
                ("post.width_is_the_number_of_requested_columns_that_exist", T.WCS(r) == ov(0, T.WCS(a.s), a.start, a.end))]
    from cwcwidth import wcswidth
    return [("post.base_characters_of_the_requested_columns", py_basef(r) == py_bcut(a.s, a.start, a.end)),
            ("post.width_is_the_number_of_requested_columns_that_exist", wcswidth(r) == ov(0, wcswidth(a.s), a.start, a.end))]


_l0 = Loop(inv=_inv_divides)
_l0.types = {"divides": "int"}
_l1 = Loop(ghosts=[_GB], inv=_inv_cut)
_l1.types = {"new_chunk_chars": "char", "divides": "int"}

cutter = Contract(
    M + "width_aware_slice", "C10", ["s", "start", "end", "replacement_char"], defaults={"replacement_char": " "},
    shapes=[Shape("columns", dict(s=StrT(plain=False), start=IntT(), end=IntT(), replacement_char=ConstT(" ")),
                  requires=lambda a: column_definitions(a.s))],
    requires=lambda a: (T.WCS(a.s) >= 0) if z3.is_expr(a.s) or z3.is_expr(a.start) else True,      # any start, any end (negative: before the run)
    ensures=_cut_ensures, result=StrT(plain=False),
    callees={"wcwidth": "ext:formatstring.wcwidth", "interval_overlap": M + "interval_overlap"},
    loops={0: _l0, 1: _l1})


# ---------------------------------------------------------------------------------------------- the run walk
MEASURABLE = z3.Function("RUNS_MEASURABLE", T.SCh, T.B)     # every run has a width: wcswidth(run) >= 0

_RS = z3.Datatype("RunCutState")
_RS.declare("mkrcs", ("rc_cells", T.SC), ("rc_w", T.I))
RCS = _RS.create()


def bcut_lemmas(s, a, b, atts):
    """ground instances of the fold lemmas for one run (validated by props/C10.lemma_selftest, not proved)"""
    c = T.BCUT(s, a, b)
    return [Implies(b <= 0, c == EMPTY),                                            # L1 no requested column at or after 0
            Implies(And(T.WCS(s) >= 0, a >= T.WCS(s)), c == EMPTY),                 # L2 request starts after the run
            Implies(And(T.WCS(s) >= 0, a <= 0, b >= T.WCS(s)), c == T.BASEF(s)),    # L3 run wholly inside
            c == T.BCUT(s, S.Max(0, a), b),                                         # L4 there are no columns below 0
            z3.Length(T.CELLS(c, atts)) == z3.Length(c), z3.Length(T.CELLS(T.BASEF(s), atts)) == z3.Length(T.BASEF(s))]


def _rc_step(g, e, k, old):
    ch = e.t
    s, at = T.ChunkS.s(ch), T.ChunkS.atts(ch)
    (a, b), w = eff_range(old.index, T.TOTW(T.FmtS.chunks(old.self))), RCS.rc_w(g)
    S.PENDING.extend(bcut_lemmas(s, a - w, b - w, at))
    return RCS.mkrcs(z3.Concat(RCS.rc_cells(g), T.CELLS(T.BCUT(s, a - w, b - w), at)), w + T.WCS(s))


def _rc_tail(total, g2, old):
    """at a break after k+1 runs: the fold over all runs = the fold so far ++ the rest, and the rest shows nothing when every
    requested column lies before it (lemma: RUNCUT splits at any run boundary; L1 for every later run)"""
    rest, restw = fresh("restcut", T.SC), fresh("restw", T.I)
    return And(RCS.rc_cells(total) == z3.Concat(RCS.rc_cells(g2), rest), RCS.rc_w(total) == RCS.rc_w(g2) + restw, restw >= 0,
               Implies(eff_range(old.index, T.TOTW(T.FmtS.chunks(old.self)))[1] <= RCS.rc_w(g2), rest == z3.Empty(T.SC)))


_RC = Ghost("RC", RCS, lambda: RCS.mkrcs(z3.Empty(T.SC), z3.IntVal(0)), _rc_step,
            lambda sp, old: RCS.mkrcs(T.RUNCUT(sp.sources[0][0], *eff_range(old.index, T.TOTW(T.FmtS.chunks(old.self)))), T.TOTW(sp.sources[0][0])),
            _rc_tail)


def eff_range(index, W):
    """the column range an index denotes on a value W columns wide (from the statement: an int is one column, negative counts from the
    end, an open bound is the edge; columns past the width do not exist - that part is in RUNCUT / ov)"""
    sym = any(z3.is_expr(x) for x in (W, getattr(index, "start", None), getattr(index, "stop", None), index))
    mx = S.Max if sym else max
    if not S.is_slice(index):
        pos = z3.If(index < 0, index + W, index) if sym else (index + W if index < 0 else index)
        return pos, pos + 1
    st, sp = index.start, index.stop
    def bound(x, default):
        if x is None:
            return default
        if z3.is_expr(x) or z3.is_expr(W):
            return z3.If(x < 0, mx(0, W + x), x)
        return max(0, W + x) if x < 0 else x
    return bound(st, 0), bound(sp, W)


def _walk_requires(a):
    if not z3.is_expr(a.self):
        return True
    xs = T.FmtS.chunks(a.self)
    return [MEASURABLE(xs), T.WCS(T.TEXT(xs)) >= 0, T.TOTW(xs) >= 0,
            T.BASEF(EMPTY) == EMPTY, T.WCS(EMPTY) == 0,
            lambda i: Implies(And(i >= 0, i < z3.Length(xs)), T.WCS(T.ChunkS.s(xs[i])) >= 0)]


def _parts(x):
    if z3.is_expr(x):
        return x
    raise AttributeError("parts is not a symbolic run list")


def _inv_walk(L):
    a, b = eff_range(L.old.index, T.TOTW(T.FmtS.chunks(L.old.self)))
    parts = L.parts
    w = RCS.rc_w(L.RC)
    return [L.index.start == a, L.index.stop == b, L.counter == w, w >= 0,
            T.BVIEW(parts) == RCS.rc_cells(L.RC), T.TOTW(parts) == ov(0, w, a, b)]


def _walk_ensures(a, r):
    if z3.is_expr(a.self):
        xs, ys = T.FmtS.chunks(a.self), T.FmtS.chunks(r)
        st = getattr(a, "final_state", None)
        ea, eb = eff_range(a.index, T.TOTW(xs))
        return [("post.shows_exactly_the_requested_columns", T.BVIEW(ys) == T.RUNCUT(xs, ea, eb)),
                ("post.width_is_the_number_of_requested_columns_that_exist", T.TOTW(ys) == ov(0, T.TOTW(xs), ea, eb))]
    from cwcwidth import wcswidth
    W = sum(wcswidth(c.s) for c in a.self.chunks)
    ea, eb = eff_range(a.index, W)
    return [("post.shows_exactly_the_requested_columns", py_bview(r) == py_runcut(a.self, ea, eb)),
            ("post.width_is_the_number_of_requested_columns_that_exist", sum(wcswidth(c.s) for c in r.chunks) == ov(0, W, ea, eb))]


fs_width = Contract(M + "FmtStr.width", "C10", ["self"], kind="property", shapes=[],
                    requires=lambda a: MEASURABLE(T.FmtS.chunks(a.self)),
                    result=lambda a, st: mk_int(T.TOTW(T.FmtS.chunks(a.self))),
                    doc="callee form (every run measurable); body verified under the memo invariant in C13 / C10")

run_walk = Contract(
    M + "FmtStr.width_aware_slice", "C10", ["self", "index"], kind="method",
    shapes=[Shape("one_column", dict(self=FmtT(), index=IntT()))] +
           [Shape(f"columns_{'a' if s else 'open'}_{'b' if e else 'open'}", dict(self=FmtT(), index=SliceT(IntT() if s else None, IntT() if e else None, None)))
            for s in (1, 0) for e in (1, 0)],
    requires=_walk_requires, ensures=_walk_ensures, result=FmtT(),
    raises={"IndexError": lambda a: (False if S.is_slice(a.index) else
                                     (Not(And(-T.TOTW(T.FmtS.chunks(a.self)) <= a.index, a.index < T.TOTW(T.FmtS.chunks(a.self)))) if z3.is_expr(a.self)
                                      else not (-sum(__import__("cwcwidth").wcswidth(c.s) for c in a.self.chunks) <= a.index
                                                < sum(__import__("cwcwidth").wcswidth(c.s) for c in a.self.chunks))))},
    callees={"wcswidth": "ext:formatstring.wcswidth", "normalize_slice": M + "normalize_slice", "fmtstr": M + "fmtstr",
             "width_aware_slice": M + "width_aware_slice"},
    loops={0: Loop(ghosts=[_RC], inv=_inv_walk)})
run_walk.extra_views = True


# ---------------------------------------------------------------------------------------------- bounded search seeded by a refutation
def _small_cuts():
    import itertools
    for n in range(0, 4):
        for p in itertools.product("aＥ́", repeat=n):
            s = "".join(p)
            w = sum(py_wcw(c) for c in s)
            for a in range(0, w + 2):
                for b in range(a, w + 3):
                    yield dict(s=s, start=a, end=b, replacement_char=" ")


def _small_walks():
    import itertools
    from curtsies.formatstring import FmtStr, Chunk
    atts = [{"fg": 31}, {"bold": True}, {"bg": 44}]
    for n in range(0, 4):
        for p in itertools.product("aＥ́", repeat=n):
            s = "".join(p)
            w = sum(py_wcw(c) for c in s)
            for i in range(n + 1):
                for j in range(i, n + 1):
                    f = FmtStr(Chunk(s[:i], atts[0]), Chunk(s[i:j], atts[1]), Chunk(s[j:], atts[2]))
                    for a in range(0, w + 2):
                        for b in range(a, w + 3):
                            yield dict(self=f, index=slice(a, b))


cutter.enumerate_small = _small_cuts
run_walk.enumerate_small = _small_walks
