"""C11 (tier 2): ChunkSplitter.request - the per-run splitter of width_aware_splitlines.
  returns None iff the run is exhausted; otherwise (width, Chunk) where the chunk is the next unread characters
  (plus at most one padding blank when a double-width character does not fit), width <= max_width is their column
  width, the splitter advances by exactly the characters returned, and it stops only when the next character does
  not fit (so a line is under-full only when the run is exhausted).
ASSUMED: cwcwidth.wcswidth additive over concatenation, single characters have width 0, 1 or 2 (C11's quantifier)."""
import z3
from pyvc import terms as T
from pyvc import spec as S
from pyvc.spec import And, Or, Not, Implies, If
from pyvc.contract import Contract, Shape, Loop, IntT, ChunkT, ObjT
import contracts.formatstring  # noqa: F401

M = "formatstring:"


def _s(o):
    return T.ChunkS.s(o.chunk)


def _req_ensures(a, r):
    o, f = a.self, a.final.self
    s = _s(o)
    n = z3.Length(s)
    off0, off1 = o.internal_offset, f.internal_offset
    if r is None:
        return [("post.none_only_when_exhausted", off0 == n),
                ("post.none_changes_nothing", And(off1 == off0, f.internal_width == o.internal_width))]
    wd, ch = r
    taken = z3.SubSeq(s, off0, off1 - off0)
    w_taken = S.wcs_of(s, off0, off1 - off0)
    nxt = T.WCS(z3.SubSeq(s, off1, 1))
    plain = And(T.ChunkS.s(ch) == taken, wd == w_taken)
    padded = And(T.ChunkS.s(ch) == z3.Concat(taken, T.str_term(" ")), wd == w_taken + 1, wd == a.max_width, off1 < n, nxt == 2)
    return [("post.not_exhausted", off0 < n),
            ("post.advances", And(off0 <= off1, off1 <= n)),
            ("post.chunk_is_next_characters_plus_at_most_one_pad", Or(plain, padded)),
            ("post.fits", And(wd <= a.max_width, wd >= 0)),
            ("post.greedy", Implies(And(plain, off1 < n), wd + nxt > a.max_width)),
            ("post.same_formatting", T.ChunkS.atts(ch) == T.ChunkS.atts(o.chunk)),
            ("post.internal_width", f.internal_width == o.internal_width + w_taken),
            ("post.same_run", f.chunk == o.chunk)]


def _req_inv(L):
    o = L.old.self
    s = _s(o)
    return [L.s == s, L.length == z3.Length(s), L.start_offset == o.internal_offset, L.start_offset <= L.i, L.i < L.length,
            L.width == S.wcs_of(s, L.start_offset, L.i - L.start_offset), L.width <= L.max_width, L.width >= 0,
            L.self.internal_offset == o.internal_offset, L.self.internal_width == o.internal_width, L.self.chunk == o.chunk]


request = Contract(
    M + "ChunkSplitter.request", "C11", ["self", "max_width"], kind="method",
    shapes=[Shape("any", dict(self=ObjT("ChunkSplitter", dict(chunk=ChunkT(), internal_offset=IntT(0), internal_width=IntT())),
                              max_width=IntT()))],
    requires=lambda a: And(a.self.internal_offset <= z3.Length(_s(a.self))),
    raises={"ValueError": lambda a: a.max_width < 1},
    ensures=_req_ensures,
    callees={"wcswidth": "ext:formatstring.wcswidth"},
    loops={0: Loop(inv=_req_inv)})
