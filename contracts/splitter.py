"""C11 (tier 2): ChunkSplitter.request - the per-run splitter of width_aware_splitlines.
  returns None iff the run is exhausted; otherwise (width, Chunk) where the chunk is the next unread characters
  (plus at most one padding blank when a double-width character does not fit), width <= max_width is their column
  width, the splitter advances by exactly the characters returned, and it stops only when the next character does
  not fit (so a line is under-full only when the run is exhausted).
ASSUMED: cwcwidth.wcswidth additive over concatenation, single characters have width 0, 1 or 2 (C11's quantifier)."""
import z3
from pyvc import terms as T
from pyvc import spec as S
from pyvc.spec import And, Or, Not, Implies, If
from pyvc.contract import Contract, Shape, Loop, IntT, ChunkT, ObjT
import contracts.formatstring  # noqa: F401

M = "formatstring:"


def _s(o):
    return T.ChunkS.s(o.chunk)


def _req_ensures(a, r):
    o, f = a.self, a.final.self
    s = _s(o)
    n = z3.Length(s)
    off0, off1 = o.internal_offset, f.internal_offset
    if r is None:
        return [("post.none_only_when_exhausted", off0 == n),
                ("post.none_changes_nothing", And(off1 == off0, f.internal_width == o.internal_width))]
    wd, ch = r
    taken = z3.SubSeq(s, off0, off1 - off0)
    w_taken = S.wcs_of(s, off0, off1 - off0)
    nxt = T.WCS(z3.SubSeq(s, off1, 1))
    # dependency contract of wcswidth: additive over concatenation, a blank is one column wide
    blank = T.str_term(" ")
    S.PENDING.extend([T.WCS(blank) == 1, Implies(T.WCS(taken) >= 0, T.WCS(z3.Concat(taken, blank)) == T.WCS(taken) + 1)])
    plain = And(T.ChunkS.s(ch) == taken, wd == w_taken)
    padded = And(T.ChunkS.s(ch) == z3.Concat(taken, T.str_term(" ")), wd == w_taken + 1, wd == a.max_width, off1 < n, nxt == 2)
    return [("post.not_exhausted", off0 < n),
            ("post.advances", And(off0 <= off1, off1 <= n)),
            ("post.chunk_is_next_characters_plus_at_most_one_pad", Or(plain, padded)),
            ("post.fits", And(wd <= a.max_width, wd >= 0)),
            ("post.chunk_not_empty", z3.Length(T.ChunkS.s(ch)) > 0),
            ("post.reported_width_is_the_width_of_the_chunk", T.WCS(T.ChunkS.s(ch)) == wd),
            ("post.greedy", Implies(And(plain, off1 < n), wd + nxt > a.max_width)),
            ("post.same_formatting", T.ChunkS.atts(ch) == T.ChunkS.atts(o.chunk)),
            ("post.internal_width", f.internal_width == o.internal_width + w_taken),
            ("post.same_run", f.chunk == o.chunk)]


def _req_inv(L):
    o = L.old.self
    s = _s(o)
    return [L.s == s, L.length == z3.Length(s), L.start_offset == o.internal_offset, L.start_offset <= L.i, L.i < L.length,
            L.width == S.wcs_of(s, L.start_offset, L.i - L.start_offset), L.width <= L.max_width, L.width >= 0,
            L.self.internal_offset == o.internal_offset, L.self.internal_width == o.internal_width, L.self.chunk == o.chunk]


request = Contract(
    M + "ChunkSplitter.request", "C11", ["self", "max_width"], kind="method",
    shapes=[Shape("any", dict(self=ObjT("ChunkSplitter", dict(chunk=ChunkT(), internal_offset=IntT(0), internal_width=IntT())),
                              max_width=IntT()))],
    requires=lambda a: And(a.self.internal_offset <= z3.Length(_s(a.self))),
    raises={"ValueError": lambda a: a.max_width < 1},
    ensures=_req_ensures,
    callees={"wcswidth": "ext:formatstring.wcswidth"},
    loops={0: Loop(inv=_req_inv)})


# =====================================================================================================================
# width_aware_splitlines: the generator that fills lines from the per-run splitter                                 C11
# =====================================================================================================================
# Ghost trace (State.ghost), advanced by the callee effect of `request` - i.e. by exactly what its proved contract says it returns:
#   sp.E    cells TAKEN from the source so far (the `taken` characters of every request, with the run's formatting)
#   sp.G    cells EMITTED so far (the chunks returned by request: taken, or taken + one padding blank)
#   sp.pad  the last request returned a padded chunk and no line has been yielded since
# and gen.out, the sequence of yielded lines.  The statement becomes:
#   content   at the end  E == cells(self)        every character taken exactly once, in order, with its formatting
#             and         G == FLAT(gen.out)      what was emitted is exactly what the lines hold, in order
#             where G differs from E only by the pads that `request` may add: a single blank, formatted like the run, when the next
#             character is double-width and the line is then full (request's contract: padded => returned width == max_width)
#   pads      a request is never made while sp.pad holds: a pad is always the last thing on its line
#   widths    every yielded line is non-empty and at most `columns` wide, every line but the last exactly `columns` wide
from pyvc.values import Sym, ObjV, fresh as _fresh, mk_int
from pyvc.contract import FmtT, NS
from pyvc.loops import GHOSTS


def _req_result(a, st):
    ex = a._ex
    o = st.deref(a._raw["self"])
    s = T.ChunkS.s(o.fields["chunk"].t)
    off0 = o.fields["internal_offset"]
    off0 = off0.t if isinstance(off0, Sym) else z3.IntVal(off0)
    if ex.decide(off0 == z3.Length(s), st):
        return None
    return (Sym("int", _fresh("req_w", T.I)), Sym("chunk", _fresh("req_chunk", T.ChunkS)))


def _req_effect(a, st, res):
    if res is None:
        return
    ex = a._ex
    o = st.deref(a._raw["self"])
    ch0 = o.fields["chunk"].t
    s, at = T.ChunkS.s(ch0), T.ChunkS.atts(ch0)
    off0 = o.fields["internal_offset"]
    off0 = off0.t if isinstance(off0, Sym) else z3.IntVal(off0)
    off1 = _fresh("off_after", T.I)
    o.fields["internal_offset"] = Sym("int", off1)
    o.fields["internal_width"] = Sym("int", _fresh("iw_after", T.I))
    g = st.ghost
    if "sp.E" in g:
        wd, ch = res
        taken = z3.SubSeq(s, off0, off1 - off0)
        ex.oblige(st, "trace.pad_only_at_the_end_of_a_line", z3.Not(g["sp.pad"]), label="no request follows a padded chunk on the same line")
        st.fact(T.Lemmas.str_slice_cells(taken, s, off0, off1, at), T.Lemmas.str_slice_cells(z3.SubSeq(s, 0, off0), s, z3.IntVal(0), off0, at),
                T.Lemmas.str_slice_cells(z3.SubSeq(s, 0, off1), s, z3.IntVal(0), off1, at), T.Lemmas.chunk(ch.t),
                T.Lemmas.cells_of(s, at))
        g["sp.E"] = z3.Concat(g["sp.E"], T.CELLS(taken, at))
        g["sp.G"] = z3.Concat(g["sp.G"], T.CELLS(T.ChunkS.s(ch.t), T.ChunkS.atts(ch.t)))
        g["sp.pad"] = z3.Not(T.ChunkS.s(ch.t) == taken)


request.result = _req_result
request.effect = _req_effect
request.modifies = ["internal_offset", "internal_width"]


def _reinit_effect(a, st, res):
    o = st.deref(a._raw["self"])
    o.fields["chunk"] = a._raw["chunk"]
    o.fields["internal_offset"] = 0
    o.fields["internal_width"] = 0
    o.fields["divides"] = None          # (only used by nothing else in the verified code)


reinit = Contract(M + "ChunkSplitter.reinit", "C11", ["self", "chunk"], kind="method", shapes=[],
                  doc="callee form: the splitter is pointed at the given run, nothing read yet (offset and width 0)")
reinit.effect = _reinit_effect
reinit.modifies = ["chunk", "internal_offset", "internal_width", "divides"]


def _splitter_result(a, st):
    return st.alloc(ObjV("ChunkSplitter", dict(chunk=a._raw["self"], internal_offset=0, internal_width=0, divides=None)))


chunk_splitter = Contract(M + "Chunk.splitter", "C11", ["self"], kind="method", shapes=[], result=_splitter_result,
                          doc="callee form: a ChunkSplitter pointed at this run (ChunkSplitter.__init__ calls reinit)")


def _gen_setup(st, values):
    g = st.ghost
    g["gen.out"] = z3.Empty(T.SF)
    g["sp.E"] = z3.Empty(T.SC)
    g["sp.G"] = z3.Empty(T.SC)
    g["sp.pad"] = z3.BoolVal(False)
    st.fact(T.FLAT(z3.Empty(T.SF)) == z3.Empty(T.SC))


def _on_yield(st, v, ex):
    st.ghost["sp.pad"] = z3.BoolVal(False)


def _line_ok(out, j, columns):
    xs = T.FmtS.chunks(out[j])
    return And(T.TOTW(xs) == columns, z3.Length(T.VIEW(xs)) > 0)


def _common_inv(L, g):
    cols = L.old.columns
    line = L.chunks_of_line
    if not z3.is_expr(line):
        line = z3.Empty(T.SCh)
        S.PENDING.extend(T.Lemmas.list_empty(line))
    out = g["gen.out"]
    return [g["sp.G"] == z3.Concat(T.FLAT(out), T.VIEW(line)),
            L.width_of_line == T.TOTW(line), L.width_of_line >= 0, L.width_of_line < cols, L.columns == cols,
            Implies(z3.Length(line) > 0, z3.Length(T.VIEW(line)) > 0),
            Not(g["sp.pad"]),
            lambda j: Implies(And(j >= 0, j < z3.Length(out)), _line_ok(out, j, cols))]


def _outer_inv(L):
    g = L._st.ghost
    return [g["sp.E"] == L.V] + _common_inv(L, g)


def _inner_inv(L):
    g = L._st.ghost
    sp = L.splitter
    src = L.source_chunk
    s, at = T.ChunkS.s(src), T.ChunkS.atts(src)
    off = sp.internal_offset
    pre = z3.SubSeq(s, 0, off)
    S.PENDING.extend(T.Lemmas.str_slice_cells(pre, s, z3.IntVal(0), off, at))
    return [sp.chunk == src, off >= 0, off <= z3.Length(s),
            g["sp.E"] == z3.Concat(g["ctx.V"], T.CELLS(pre, at))] + _common_inv(L, g)


def _gen_ensures(a, r):
    if not z3.is_expr(a.self):
        # run time (replay / bounded): the generator is consumed and judged by the statement's own oracle
        import props.C11 as C11
        d = C11.judge(a.self, a.columns, list(r))
        return [("post.lines_wrap_without_losing_anything", d == "")]
    st = a.final_state
    g = st.ghost
    out, cols = g["gen.out"], a.columns
    xs = T.FmtS.chunks(a.self)
    n = z3.Length(out)
    return [("post.every_character_taken_once_in_order_with_its_formatting", g["sp.E"] == T.VIEW(xs)),
            ("post.the_lines_hold_exactly_what_was_emitted", T.FLAT(out) == g["sp.G"]),
            ("post.no_pad_left_in_the_middle_of_a_line", Not(g["sp.pad"])),
            ("post.no_line_empty_or_wider_than_columns", lambda j: Implies(And(j >= 0, j < n), And(z3.Length(T.VIEW(T.FmtS.chunks(out[j]))) > 0,
                                                                                                   T.TOTW(T.FmtS.chunks(out[j])) <= cols))),
            ("post.every_line_but_the_last_exactly_columns_wide", lambda j: Implies(And(j >= 0, j < n - 1), T.TOTW(T.FmtS.chunks(out[j])) == cols))]


_gen_outer = Loop(ghosts=["V"], inv=_outer_inv)
_gen_outer.types = {"chunks_of_line": "chunk"}
_gen_inner = Loop(inv=_inner_inv)
_gen_inner.types = {"chunks_of_line": "chunk"}

splitlines_gen = Contract(
    M + "FmtStr._width_aware_splitlines#body", "C11", ["self", "columns"], kind="method",
    shapes=[Shape("any", dict(self=FmtT(), columns=IntT(2)))],
    requires=lambda a: [lambda i: Implies(And(i >= 0, i < z3.Length(T.FmtS.chunks(a.self))), T.WCS(T.ChunkS.s(T.FmtS.chunks(a.self)[i])) >= 0)],
    ensures=_gen_ensures,
    loops={0: _gen_outer, 1: _gen_inner})
splitlines_gen.setup = _gen_setup
splitlines_gen.on_yield = _on_yield


def _small_wraps():
    import itertools
    from curtsies.formatstring import FmtStr, Chunk
    atts = [{"fg": 31}, {"bold": True}, {"bg": 44}]
    for n in range(0, 5):
        for p in itertools.product("a\uff25\u0301", repeat=n):
            t = "".join(p)
            for i in range(n + 1):
                for j in range(i, n + 1):
                    for cols in (2, 3):
                        yield dict(self=FmtStr(Chunk(t[:i], atts[0]), Chunk(t[i:j], atts[1]), Chunk(t[j:], atts[2])), columns=cols)


splitlines_gen.enumerate_small = _small_wraps


# ---------------------------------------------------------------------------------------------------------------------
# the small pieces around the generator, verified against the callee forms used above
# ---------------------------------------------------------------------------------------------------------------------
import contracts.columns  # noqa: F401,E402  (wcwidth / wcswidth contracts)

reinit_body = Contract(
    M + "ChunkSplitter.reinit#body", "C11", ["self", "chunk"], kind="method",
    shapes=[Shape("any", dict(self=ObjT("ChunkSplitter", dict(chunk=ChunkT(), internal_offset=IntT(), internal_width=IntT())), chunk=ChunkT()))],
    ensures=lambda a, r: [("post.points_at_the_given_run_nothing_read", And(a.final.self.chunk == a.chunk, a.final.self.internal_offset == 0,
                                                                           a.final.self.internal_width == 0))],
    callees={"wcwidth": "ext:formatstring.wcwidth"},
    loops={0: Loop(inv=lambda L: [L.self.chunk == L.old.chunk, L.self.internal_offset == 0, L.self.internal_width == 0,
                                  z3.Length(S.as_int_seq(L.divides)) == L.k + 1])})
reinit_body.loops[0].types = {"divides": "int"}


def _wrapper_measurable(a):
    return T.WCS(T.TEXT(T.FmtS.chunks(a.self))) != -1


splitlines_wrapper = Contract(
    M + "FmtStr.width_aware_splitlines", "C11", ["self", "columns"], kind="method",
    shapes=[Shape("any", dict(self=FmtT(), columns=IntT()))],
    raises={"ValueError": lambda a: Or(a.columns < 2, Not(_wrapper_measurable(a)))},
    ensures=lambda a, r: [("post.hands_over_to_the_line_filler", True)],
    callees={"wcswidth": "ext:formatstring.wcswidth"})
# (the call self._width_aware_splitlines(columns) creates the generator verified above; calling a generator function runs none of its body)
Contract(M + "FmtStr._width_aware_splitlines", "C11", ["self", "columns"], kind="method", shapes=[],
         result=lambda a, st: __import__("pyvc.values", fromlist=["OpaqueV"]).OpaqueV("generator"))

GENERATOR_CONTRACTS = [request, reinit_body, splitlines_gen, splitlines_wrapper]
