"""C13-F2 memo coherence: under MemoInv(self) (`field is None or field == Fresh(chunks)`) the memoised
views __len__, s, width, __str__ return the fresh value and re-establish MemoInv; `chunks` is not touched."""
import z3
from pyvc import terms as T
from pyvc.spec import And, Or, Not, Implies, If
from pyvc.contract import Contract, Shape, Loop, IntT, StrT, ConstT, NoneT, ObjT, ChunkListT, TypeSpec
from pyvc.loops import STRFOLD, COLORSTR
from pyvc.values import Sym, fresh, mk_int

import contracts.formatstring  # noqa: F401  (callee contracts)
M = "formatstring:"


class _BorrowedChunks(ChunkListT):
    def fresh(self, name, st):
        r = super().fresh(name, st)
        st.deref(r).borrowed = True     # the run list belongs to the pre-existing value: mutation = frame violation
        return r


def _fmt_obj(**memo):
    f = dict(chunks=_BorrowedChunks(), _len=None, _s=None, _width=None, _unicode=None)
    f.update(memo)
    return ObjT("FmtStr", f)


def _memo_contract(qual, field, fresh_of, kind, ftype, loops=None, requires=None):
    def ens(a, r):
        fr = fresh_of(a.self.chunks)
        return [("post.value", r == fr), ("post.memo", getattr(a.final.self, field) == fr),
                ("post.chunks_untouched", a.final.self.chunks == a.self.chunks)]

    def req_hit(a):
        return getattr(a.self, field) == fresh_of(a.self.chunks)

    def both(a):
        r = [req_hit(a)]
        if requires is not None:
            x = requires(a)
            r += x if isinstance(x, list) else [x]
        return r
    # MemoInv over ALL four slots: each is None or holds its fresh value.  Besides "nothing memoised" and "this view memoised" the view
    # is verified from the state "this view not memoised yet, every OTHER view is" (a body that takes a short cut through another
    # slot - width from the memoised text, say - is executed there)
    OTHERS = {"_len": (IntT(), lambda xs: T.TOTLEN(xs)), "_s": (StrT(plain=False), lambda xs: T.TEXT(xs)),
              "_width": (IntT(), lambda xs: T.TOTW(xs)), "_unicode": (StrT(plain=False), lambda xs: STRFOLD(xs))}
    others = {k: v for k, v in OTHERS.items() if k != field}

    def req_others(a):
        r = [getattr(a.self, k) == fr(a.self.chunks) for k, (_, fr) in others.items()]
        if requires is not None:
            x = requires(a)
            r += x if isinstance(x, list) else [x]
        return r
    c = Contract(M + "FmtStr." + qual + "#memo", "C13", ["self"], kind=kind,
                 shapes=[Shape("miss", dict(self=_fmt_obj()), requires=requires),
                         Shape("hit", dict(self=_fmt_obj(**{field: ftype})), requires=both),
                         Shape("miss_others_memoised", dict(self=_fmt_obj(**{k: t for k, (t, _) in others.items()})), requires=req_others)],
                 ensures=ens, result=None, loops=loops or {})
    return c


len_memo = _memo_contract("__len__", "_len", lambda xs: T.TOTLEN(xs), "method", IntT())
s_memo = _memo_contract("s", "_s", lambda xs: T.TEXT(xs), "property", StrT(plain=False))


def _width_req(a):
    xs = a.self.chunks
    # every run has a computable width (the quantifier of C10: characters with wcwidth >= 0) and Chunk.width does not raise
    return [lambda i: Implies(And(i >= 0, i < z3.Length(xs)),
                              Or(z3.Length(T.ChunkS.s(xs[i])) == 0, T.WCS(T.ChunkS.s(xs[i])) >= 0))]


width_memo = _memo_contract("width", "_width", lambda xs: T.TOTW(xs), "property", IntT(),
                            loops={("comp", 0): Loop(ghosts=["W"], inv=lambda L: [L.acc__ == L.W])}, requires=_width_req)

str_memo = _memo_contract("__str__", "_unicode", lambda xs: STRFOLD(xs), "method", StrT(plain=False))
ALL = [len_memo, s_memo, width_memo, str_memo]
